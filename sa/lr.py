"""Core E: LR automaton for the source-extracted grammar.

Canonical LR(1) item sets, merged by core into LALR(1), with SLY's conflict resolution
(sly/yacc.py lr_parse_table) replicated:
  production precedence = right-most terminal's (or %prec); shift/reduce: reduce iff
  level(token) < level(prod) or equal and prod assoc == 'left'; equal and 'nonassoc' -> error;
  otherwise shift; conflicts where the production has level 0 are resolved *by default* (reported);
  reduce/reduce resolved by line order (reported).
"""
from __future__ import annotations

from dataclasses import dataclass, field
from typing import Dict, FrozenSet, List, Optional, Tuple

from .gram import GrammarModel, Production

END = "$end"
START = "S'"


@dataclass
class Decision:
    state: int
    terminal: str
    production: Production
    resolution: str  # 'reduce' | 'shift' | 'error'
    slevel: int
    rlevel: int
    rassoc: str
    by_default: bool


@dataclass
class Tables:
    productions: List[Production]
    action: List[Dict[str, Tuple[str, int]]]  # state -> terminal -> ('s', state) | ('r', prod idx) | ('a', 0)
    goto: List[Dict[str, int]]
    decisions: List[Decision]
    rr_conflicts: List[Tuple[int, str, Production, Production]]
    n_states: int
    n_lr1_states: int
    prec_of_term: Dict[str, Tuple[str, int]]
    prec_of_prod: Dict[int, Tuple[str, int]]
    lalr_introduced: List[Tuple[int, str]] = field(default_factory=list)


class Grammar:
    def __init__(self, g: GrammarModel):
        self.g = g
        self.prods: List[Tuple[str, Tuple[str, ...]]] = [(START, (g.start,))] + [(p.name, p.syms) for p in g.productions]
        self.nonterms = set(n for n, _ in self.prods)
        self.terms = set()
        for _, rhs in self.prods:
            for s in rhs:
                if s not in self.nonterms:
                    self.terms.add(s)
        self.terms.add(END)
        self.by_name: Dict[str, List[int]] = {}
        for i, (n, _) in enumerate(self.prods):
            self.by_name.setdefault(n, []).append(i)
        self._first()
        self.prec_term: Dict[str, Tuple[str, int]] = {}
        for level, (assoc, terms) in enumerate(g.precedence, start=1):
            for t in terms:
                self.prec_term[t] = (assoc, level)
        self.prec_prod: Dict[int, Tuple[str, int]] = {}
        for i, p in enumerate(g.productions, start=1):
            if p.prec_override:
                self.prec_prod[i] = self.prec_term.get(p.prec_override, ("right", 0))
            else:
                rt = None
                for s in reversed(p.syms):
                    if s in self.terms:
                        rt = s
                        break
                self.prec_prod[i] = self.prec_term.get(rt, ("right", 0)) if rt else ("right", 0)

    def undefined_symbols(self) -> List[str]:
        """Symbols used on a right-hand side that are neither tokens/literals nor rules."""
        declared = set(self.g.tokens) | set(self.g.literals)
        return sorted(s for s in self.terms if s not in declared and s != END)

    def _first(self):
        self.nullable = set()
        changed = True
        while changed:
            changed = False
            for n, rhs in self.prods:
                if n not in self.nullable and all(s in self.nullable for s in rhs):
                    self.nullable.add(n)
                    changed = True
        self.first: Dict[str, set] = {t: {t} for t in self.terms}
        for n in self.nonterms:
            self.first[n] = set()
        changed = True
        while changed:
            changed = False
            for n, rhs in self.prods:
                for s in rhs:
                    add = self.first[s] - self.first[n]
                    if add:
                        self.first[n] |= add
                        changed = True
                    if s not in self.nullable:
                        break

    def first_seq(self, seq: Tuple[str, ...], la: str) -> set:
        out = set()
        for s in seq:
            out |= self.first[s]
            if s not in self.nullable:
                return out
        out.add(la)
        return out


Item = Tuple[int, int, str]  # (production index, dot, lookahead)


def _closure(G: Grammar, items: FrozenSet[Item]) -> FrozenSet[Item]:
    out = set(items)
    work = list(items)
    while work:
        pi, dot, la = work.pop()
        rhs = G.prods[pi][1]
        if dot < len(rhs) and rhs[dot] in G.nonterms:
            B = rhs[dot]
            las = G.first_seq(rhs[dot + 1:], la)
            for qi in G.by_name[B]:
                for b in las:
                    it = (qi, 0, b)
                    if it not in out:
                        out.add(it)
                        work.append(it)
    return frozenset(out)


def build_tables(g: GrammarModel, want_lr1_check: bool = False) -> Tables:
    G = Grammar(g)
    start = _closure(G, frozenset({(0, 0, END)}))
    states: List[FrozenSet[Item]] = [start]
    index = {start: 0}
    trans: List[Dict[str, int]] = [{}]
    work = [0]
    while work:
        si = work.pop()
        I = states[si]
        by_sym: Dict[str, set] = {}
        for pi, dot, la in I:
            rhs = G.prods[pi][1]
            if dot < len(rhs):
                by_sym.setdefault(rhs[dot], set()).add((pi, dot + 1, la))
        for sym in sorted(by_sym):
            J = _closure(G, frozenset(by_sym[sym]))
            if J not in index:
                index[J] = len(states)
                states.append(J)
                trans.append({})
                work.append(index[J])
            trans[si][sym] = index[J]
    n_lr1 = len(states)

    # merge by core -> LALR
    core_of = []
    core_index: Dict[FrozenSet[Tuple[int, int]], int] = {}
    for I in states:
        core = frozenset((pi, dot) for pi, dot, _ in I)
        if core not in core_index:
            core_index[core] = len(core_index)
        core_of.append(core_index[core])
    n = len(core_index)
    merged: List[set] = [set() for _ in range(n)]
    mtrans: List[Dict[str, int]] = [{} for _ in range(n)]
    for si, I in enumerate(states):
        merged[core_of[si]] |= I
        for sym, tj in trans[si].items():
            mtrans[core_of[si]][sym] = core_of[tj]

    tables = _tables_from(G, g, [frozenset(x) for x in merged], mtrans, n_lr1)
    if want_lr1_check:
        canon = _tables_from(G, g, states, trans, n_lr1)
        # every conflict (state,terminal) of the LALR table must already exist in some LR(1) state of
        # that core: LALR merging may only add reduce/reduce conflicts; list those it introduced.
        lr1_conf = set()
        for d in canon.decisions:
            lr1_conf.add((core_of[d.state], d.terminal, d.production.index))
        for d in tables.decisions:
            if (d.state, d.terminal, d.production.index) not in lr1_conf:
                tables.lalr_introduced.append((d.state, d.terminal))
        lr1_rr = set((core_of[s], t) for s, t, _, _ in canon.rr_conflicts)
        for s, t, _, _ in tables.rr_conflicts:
            if (s, t) not in lr1_rr:
                tables.lalr_introduced.append((s, t))
    return tables


def _tables_from(G: Grammar, g: GrammarModel, states, trans, n_lr1) -> Tables:
    action: List[Dict[str, Tuple[str, int]]] = []
    goto: List[Dict[str, int]] = []
    decisions: List[Decision] = []
    rr: List[Tuple[int, str, Production, Production]] = []
    for si, I in enumerate(states):
        act: Dict[str, Tuple[str, int]] = {}
        gt: Dict[str, int] = {}
        reduces: Dict[str, List[int]] = {}
        for pi, dot, la in I:
            rhs = G.prods[pi][1]
            if dot == len(rhs):
                if pi == 0:
                    act[END] = ("a", 0)
                else:
                    reduces.setdefault(la, [])
                    if pi not in reduces[la]:
                        reduces[la].append(pi)
        for sym, tj in trans[si].items():
            if sym in G.nonterms:
                gt[sym] = tj
        for la, plist in reduces.items():
            plist.sort(key=lambda pi: (g.productions[pi - 1].lineno, pi))
            chosen = plist[0]
            for other in plist[1:]:
                rr.append((si, la, g.productions[chosen - 1], g.productions[other - 1]))
            shift_to = trans[si].get(la) if la in G.terms else None
            if shift_to is None or la == END:
                act[la] = ("r", chosen)
                continue
            sprec, slevel = G.prec_term.get(la, ("right", 0))
            rprec, rlevel = G.prec_prod[chosen]
            if slevel < rlevel or (slevel == rlevel and rprec == "left"):
                res = "reduce"
                by_default = (not slevel and not rlevel)
                act[la] = ("r", chosen)
            elif slevel == rlevel and rprec == "nonassoc":
                res = "error"
                by_default = False
            else:
                res = "shift"
                by_default = not rlevel
                act[la] = ("s", shift_to)
            decisions.append(Decision(si, la, g.productions[chosen - 1], res, slevel, rlevel, rprec, by_default))
        for sym, tj in trans[si].items():
            if sym in G.terms and sym not in reduces:
                act[sym] = ("s", tj)
        action.append(act)
        goto.append(gt)
    return Tables(g.productions, action, goto, decisions, rr, len(states), n_lr1, dict(G.prec_term), dict(G.prec_prod))


# --------------------------------------------------------------------------------------------
# model parser: run the extracted tables on a sequence of terminal names
# --------------------------------------------------------------------------------------------
@dataclass
class PNode:
    sym: str
    prod: Optional[Production] = None
    children: List["PNode"] = field(default_factory=list)
    tag: Optional[object] = None  # for leaves: caller-supplied payload

    def sexpr(self) -> str:
        if self.prod is None:
            return self.sym if self.tag is None else f"{self.sym}:{self.tag}"
        return "(" + self.prod.name + "#" + str(self.prod.index) + " " + " ".join(c.sexpr() for c in self.children) + ")"


class ParseFail(Exception):
    def __init__(self, pos: int, terminal: str):
        super().__init__(f"model parser: syntax error at position {pos} on {terminal}")
        self.pos = pos
        self.terminal = terminal


def parse_model(t: Tables, toks: List[Tuple[str, object]], start_state: int = 0) -> PNode:
    """toks: list of (terminal name, payload). Returns the derivation tree."""
    stack_s = [start_state]
    stack_n: List[PNode] = []
    i = 0
    seq = list(toks) + [(END, None)]
    steps = 0
    while True:
        steps += 1
        if steps > 100000:
            raise ParseFail(i, "<loop>")
        la, payload = seq[i]
        a = t.action[stack_s[-1]].get(la)
        if a is None:
            raise ParseFail(i, la)
        kind, arg = a
        if kind == "s":
            stack_s.append(arg)
            stack_n.append(PNode(la, None, [], payload))
            i += 1
        elif kind == "r":
            p = t.productions[arg - 1]
            k = len(p.syms)
            kids = stack_n[len(stack_n) - k:] if k else []
            if k:
                del stack_n[-k:]
                del stack_s[-k:]
            stack_n.append(PNode(p.name, p, list(kids)))
            nxt = t.goto[stack_s[-1]].get(p.name)
            if nxt is None:
                raise ParseFail(i, la)
            stack_s.append(nxt)
        else:
            return stack_n[-1]
