"""Handler evaluation harness: evaluates every visitor handler with the abstract interpreter, one
entry state per (node kind, operator kind) drawn from the parser's image, and every function
handler per admissible argument count. Results are cached per run and shared by the rule sets."""
from __future__ import annotations

import ast
from dataclasses import dataclass, field
from typing import Any, Dict, List, Optional, Set, Tuple

from .interp import Interp, PathResult
from .model import NotConst
from .report import AnalysisError
from .values import (AbsList, AltV, Const, ListV, MapV, NewNode, NodeV, ObjV, PyDict, PyList, PyTuple, RefV, Str, Sym, V,
                     _apply_tr)

VISITOR_BASE = "odata_query.visitor.NodeVisitor"
TRANSFORMER = "odata_query.visitor.NodeTransformer"


@dataclass
class Dispatch:
    prefix: str
    source: str  # 'name' | 'full_name' | '?'
    transforms: Tuple
    convention: str  # 'star' (all arguments positional) | 'split' (NamedParam -> keyword arguments) | '?'
    where: str = ""
    raw: Any = None

    def handler_name(self, namespace: Tuple[str, ...], name: str) -> Optional[str]:
        if self.source == "name":
            s = name
        elif self.source == "full_name":
            s = ".".join(namespace + (name,))
        else:
            return None
        return self.prefix + _apply_tr(s, self.transforms)


class HandlerEval:
    def __init__(self, env):
        self.env = env
        self.repo = env.repo
        self.schema = env.schema
        self.kf = env.kindflow
        self._visit_cache: Dict[Tuple, List[PathResult]] = {}
        self._func_cache: Dict[Tuple, List[PathResult]] = {}
        self._dispatch: Dict[str, Optional[Dispatch]] = {}
        self.table = self._function_table()

    # ---- visitors -----------------------------------------------------------------------------------------
    def visitors(self) -> List[str]:
        out = []
        for q in self.repo.subclasses(VISITOR_BASE):
            if TRANSFORMER in self.repo.mro(q) or q == TRANSFORMER:
                continue
            ci = self.repo.classes[q]
            if ci.name.startswith("_"):
                continue
            out.append(q)
        return sorted(out)

    def sql_visitors(self) -> List[str]:
        base = "odata_query.sql.base.AstToSqlVisitor"
        return [q for q in self.visitors() if base in self.repo.mro(q)]

    def short(self, q: str) -> str:
        return q.rsplit(".", 1)[-1]

    # ---- kinds ---------------------------------------------------------------------------------------------
    def kind_cases(self) -> List[Tuple[str, Optional[str]]]:
        out: List[Tuple[str, Optional[str]]] = []
        for k in sorted(self.kf.all_kinds()):
            df = self.kf.kinds.discr_field(k)
            if df:
                ds = sorted(d for (kk, d) in self.kf.kinds.table if kk == k and d is not None)
                if ds:
                    out.extend((k, d) for d in ds)
                    continue
            out.append((k, None))
        return out

    def make_node(self, kind: str, discr: Optional[str], path: str = "node") -> NodeV:
        n = NodeV(path, {kind})
        if discr:
            df = self.kf.kinds.discr_field(kind)
            n.fields[df] = NodeV(f"{path}.{df}", {discr}, n, via=df)
        return n

    def resolve_visit(self, vcls: str, kind: str):
        r = self.repo.lookup_method(vcls, "visit_" + kind)
        if r is None:
            return None
        return r

    def eval_visit(self, vcls: str, kind: str, discr: Optional[str] = None, fields: Optional[Dict[str, Set[str]]] = None) -> Optional[List[PathResult]]:
        """Paths of visit_<kind> on a node of that kind (operator field fixed to `discr`); `fields` narrows further node-valued
        fields to the given kinds beforehand (e.g. right={'Null'}), so that a handler which never looks at them is still evaluated
        for exactly those trees."""
        key = (vcls, kind, discr) if not fields else (vcls, kind, discr, tuple(sorted((k, tuple(sorted(v))) for k, v in fields.items())))
        if key in self._visit_cache:
            return self._visit_cache[key]
        r = self.resolve_visit(vcls, kind)
        if r is None:
            self._visit_cache[key] = None  # type: ignore[assignment]
            return None
        ci, fn = r
        interp = self.env.interp()
        # a check that itself requires every handler of this visitor to return text may use that inductively for the children
        interp.visit_returns_text = vcls in self.__dict__.setdefault("text_visitors", set())

        def setup(it):
            n = self.make_node(kind, discr)
            for f, ks in (fields or {}).items():
                n.fields[f] = NodeV(f"node.{f}", set(ks), n, via=f)
            return ci.module, fn, [ObjV(vcls, {}, "self"), n], {}, ci.qual

        paths = interp.explore(setup)
        for p in paths:
            p.entry["handler"] = f"{ci.qual}.{fn.name}"
            p.entry["where"] = ci.module.loc(fn)
        self._visit_cache[key] = paths
        return paths

    def generic_refuses(self, vcls: str) -> bool:
        """Does the visitor override generic_visit so that every path raises a library exception?
        (then a kind without a handler is refused instead of silently yielding None)"""
        cache = self.__dict__.setdefault("_refuse_cache", {})
        if vcls in cache:
            return cache[vcls]
        r = self.repo.lookup_method(vcls, "generic_visit")
        ok = False
        if r is not None and r[0].qual not in (VISITOR_BASE, TRANSFORMER):
            ci, fn = r
            interp = self.env.interp()
            kinds = set(self.kf.all_kinds())

            def setup(it):
                return ci.module, fn, [ObjV(vcls, {}, "self"), NodeV("node", kinds)], {}, ci.qual

            paths = interp.explore(setup)
            base = "odata_query.exceptions.ODataException"

            def lib(p):
                v = p.value
                q = v.args[0].qual if isinstance(v, Sym) and v.op == "exc" and isinstance(v.args[0], RefV) else None
                return p.outcome == "raise" and q in self.repo.classes and base in self.repo.mro(q)

            ok = bool(paths) and all(lib(p) for p in paths)
        cache[vcls] = ok
        return ok

    # ---- function dispatch -----------------------------------------------------------------------------------
    def _function_table(self) -> Dict[str, Tuple[int, int]]:
        fa = self.repo.assign("odata_query.grammar", "ODATA_FUNCTIONS")
        if fa is None:
            raise AnalysisError("ODATA_FUNCTIONS not found")
        try:
            raw = self.repo.fold(fa[0], fa[1])
        except NotConst as e:
            raise AnalysisError(f"ODATA_FUNCTIONS is not constant: {e}")
        out = {}
        for k, v in raw.items():
            out[k] = (v, v) if isinstance(v, int) else (v[0], v[1])
        return out

    def dispatch(self, vcls: str) -> Optional[Dispatch]:
        if vcls in self._dispatch:
            return self._dispatch[vcls]
        paths = self.eval_visit(vcls, "Call")
        d: Optional[Dispatch] = None
        for p in paths or []:
            for ev in p.events:
                if ev.kind == "dispatch":
                    prefix = ev.data["prefix"]
                    key = ev.data["key"]
                    source, transforms = "?", ()
                    if isinstance(key, Str) and len(key.parts) == 1 and key.parts[0][0] == "dyn":
                        val, transforms = key.parts[0][1], tuple(key.parts[0][2])
                        if isinstance(val, Sym) and val.op == "field" and val.args[1] == "name":
                            source = "name"
                        elif isinstance(val, Sym) and val.op == "meth" and val.args[1] == "full_name":
                            source = "full_name"
                    elif isinstance(key, Sym) and key.op == "field" and key.args[1] == "name":
                        source = "name"
                    elif isinstance(key, Sym) and key.op == "meth" and key.args[1] == "full_name":
                        source = "full_name"
                    args = ev.data["args"]
                    conv = d.convention if d is not None else "?"
                    if len(args) == 1 and isinstance(args[0], Sym) and args[0].op == "star":
                        inner = args[0].args[0]
                        if isinstance(inner, ListV) and conv == "?":
                            conv = "star"
                        elif isinstance(inner, PyList):
                            conv = "split"
                    if "**" in ev.data.get("kwargs", {}):
                        conv = "split"
                    d = Dispatch(prefix, source, transforms, conv, ev.where, key)
        self._dispatch[vcls] = d
        return d

    def dispatch_passes_positional(self, vcls: str) -> Optional[bool]:
        """Does some path of visit_Call hand something derived from the call's argument list (node.args: `*node.args`, a list
        filled from a loop over it, its translated image, single elements) to the function handler positionally? False only when
        visit_Call dispatches to handlers and no positional argument on any path mentions node.args at all; None when visit_Call has
        no handler dispatch."""
        seen = False
        for p in self.eval_visit(vcls, "Call") or []:
            for ev in p.events:
                if ev.kind != "dispatch":
                    continue
                seen = True
                for a in ev.data["args"]:
                    inner = a.args[0] if isinstance(a, Sym) and a.op == "star" else a
                    txt = repr(inner) + repr(getattr(inner, "loop_parts", ""))
                    if ".args" in txt:
                        return True
        return False if seen else None

    def func_handlers(self, vcls: str) -> Dict[str, Tuple[Any, ast.FunctionDef]]:
        d = self.dispatch(vcls)
        if d is None:
            return {}
        out = {}
        for name in self.repo.all_method_names(vcls):
            if name.startswith(d.prefix):
                r = self.repo.lookup_method(vcls, name)
                if r is not None:
                    out[name] = r
        return out

    def functions_for_handler(self, vcls: str, hname: str) -> List[str]:
        """Table entries (dotted names) whose calls the visitor routes to this handler."""
        d = self.dispatch(vcls)
        out = []
        if d is None:
            return out
        for full in self.table:
            parts = full.split(".")
            if d.handler_name(tuple(parts[:-1]), parts[-1]) == hname:
                out.append(full)
        return out

    def arg_kinds(self) -> Set[str]:
        ks = set(self.kf.expr_kinds)
        d = self.kf.kinds.desc("Call", None, "args")
        if d is not None:
            ks |= {k for k in d.kinds if k in self.schema.classes}
        return ks

    def eval_func(self, vcls: str, hname: str, nargs: int, named: Tuple[str, ...] = ()) -> List[PathResult]:
        key = (vcls, hname, nargs, named)
        if key in self._func_cache:
            return self._func_cache[key]
        r = self.repo.lookup_method(vcls, hname)
        if r is None:
            raise AnalysisError(f"{vcls}.{hname} not found")
        ci, fn = r
        interp = self.env.interp()
        kinds = set(self.kf.expr_kinds)

        decorated = [d for d in fn.decorator_list if ast.unparse(d) not in ("staticmethod", "classmethod", "property")]

        def setup(it):
            args: List[V] = [NodeV(f"args[{i}]", kinds) for i in range(nargs)]
            kwargs = {n: NodeV(f"kwargs[{n}]", kinds) for n in named}
            it._cur_args = args
            if decorated:
                # evaluate through the decorators: a thin trampoline function calls the decorated method
                it._deco_target = (ci.module, fn, [ObjV(vcls, {}, "self")] + args, kwargs, ci.qual)
                return ci.module, _TRAMPOLINE, [], {}, None
            return ci.module, fn, [ObjV(vcls, {}, "self")] + args, kwargs, ci.qual

        if decorated:
            interp.func_overrides = dict(getattr(interp, "func_overrides", {}) or {})
        paths = interp.explore(setup)
        for p in paths:
            p.entry["handler"] = f"{ci.qual}.{fn.name}"
            p.entry["where"] = ci.module.loc(fn)
        self._func_cache[key] = paths
        return paths

    def signature_counts(self, vcls: str, hname: str) -> Tuple[int, Optional[int], bool]:
        """(min positional, max positional or None for *args, accepts **kwargs)"""
        r = self.repo.lookup_method(vcls, hname)
        ci, fn = r
        a = fn.args
        params = a.posonlyargs + a.args
        n = len(params) - 1  # self
        nd = len(a.defaults)
        return n - nd, (None if a.vararg else n), a.kwarg is not None


_INJECTIVE_CALLS = {"builtins.str", "builtins.repr", "builtins.tuple", "builtins.id", "builtins.list"}


def _atoms(v, out: Set[str], lossy: Set[str], under_lossy: bool = False, stop: Optional[Set[str]] = None):
    """Inputs a value depends on: configuration attributes, argument nodes/fields, parameters. `stop`: reprs of
    terms that need not be opened (they are themselves part of the cache key)."""
    if stop is not None and isinstance(v, V):
        try:
            if repr(v) in stop:
                return
        except Exception:
            pass
    return _atoms_open(v, out, lossy, under_lossy, stop)


def _atoms_open(v, out: Set[str], lossy: Set[str], under_lossy: bool, stop):
    if isinstance(v, NodeV):
        out.add(v.path)
        if under_lossy:
            lossy.add(v.path)
        return
    if isinstance(v, ListV):
        out.add(v.path)
        return
    if isinstance(v, ObjV):
        if v.label == "self":
            return
        for a in (v.init_args[0] if v.init_args else []):
            _atoms(a, out, lossy, under_lossy, stop)
        return
    if isinstance(v, Str):
        for p in v.parts:
            if p[0] == "dyn":
                lz = under_lossy or any(t and t[0] in ("lower", "upper", "casefold", "strip", "slice", "split", "replace") for t in p[2])
                _atoms(p[1], out, lossy, lz, stop)
            elif p[0] == "join":
                _atoms(p[2], out, lossy, under_lossy, stop)
                _atoms(p[3], out, lossy, under_lossy, stop)
        return
    if isinstance(v, Sym):
        if v.op == "cfg":
            a = f"self.{v.args[1]}"
            out.add(a)
            if under_lossy:
                lossy.add(a)
            return
        if v.op == "param":
            a = f"param:{v.args[0]}"
            out.add(a)
            if under_lossy:
                lossy.add(a)
            return
        if v.op in ("field", "prop", "meth") and isinstance(v.args[0], NodeV):
            a = f"{v.args[0].path}.{v.args[1]}"
            out.add(a)
            if under_lossy:
                lossy.add(a)
            return
        inj = v.op == "call" and isinstance(v.args[0], RefV) and v.args[0].qual in _INJECTIVE_CALLS
        for a in v.args:
            if isinstance(a, (V, tuple, list)):
                _atoms(a, out, lossy, under_lossy or not inj, stop)
        return
    if isinstance(v, (PyList, PyTuple)):
        for i in v.items:
            _atoms(i, out, lossy, under_lossy, stop)
        return
    if isinstance(v, (tuple, list)):
        for i in v:
            if isinstance(i, (V, tuple, list)):
                _atoms(i, out, lossy, under_lossy, stop)
        return
    if isinstance(v, MapV):
        _atoms(v.elem, out, lossy, under_lossy, stop)
        _atoms(v.over, out, lossy, under_lossy, stop)
        return
    if isinstance(v, NewNode):
        for f in v.fields.values():
            _atoms(f, out, lossy, under_lossy, stop)


def cache_findings(paths) -> List[Tuple[str, str, str]]:
    """Stores into containers shared between instances/calls (class-level or module-level dicts): the key must
    determine everything the stored value was computed from. Returns (stable key, message, where)."""
    out: List[Tuple[str, str, str]] = []
    seen = set()
    for p in paths or []:
        for ev in p.events:
            if ev.kind != "mutate" or ev.data.get("op") != "setitem" or not ev.data.get("shared"):
                continue
            kin: Set[str] = set()
            klossy: Set[str] = set()
            vin: Set[str] = set()
            vlossy: Set[str] = set()
            keyv = ev.data.get("keyv")
            _atoms(keyv, kin, klossy)
            stop: Set[str] = set()
            todo = [keyv]
            while todo:
                t = todo.pop()
                if isinstance(t, V):
                    stop.add(repr(t))
                if isinstance(t, (PyList, PyTuple)):
                    todo.extend(t.items)
            _atoms(ev.data.get("valv"), vin, vlossy, False, stop)

            def covered(a: str) -> bool:
                return any(a == k or a.startswith(k + ".") or a.startswith(k + "[") for k in kin - klossy)

            missing = sorted(a for a in vin if not covered(a))
            if not missing:
                continue
            name = ev.data["shared"]
            k = f"{name}|{','.join(missing)[:80]}"
            if k in seen:
                continue
            seen.add(k)
            why = f"the value stored in the shared container {name} depends on {missing}, which the key ({sorted(kin) or 'constant'}) does not determine"
            if any(a in klossy for a in missing):
                why += " exactly (the key is normalised, the value is computed from the original)"
            out.append((k, why + ": another instance or a later call gets an answer computed for different inputs", ev.where))
    return out


_TRAMPOLINE = ast.parse("def __trampoline__():\n    return __call_decorated__()\n").body[0]


def get(env) -> HandlerEval:
    h = getattr(env, "_heval", None)
    if h is None:
        h = HandlerEval(env)
        env._heval = h
    return h
